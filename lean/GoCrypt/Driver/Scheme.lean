import GoCrypt.Model.Scheme
import GoCrypt.Driver.State
import GoCrypt.Driver.Codec
import GoCrypt.Spec.SecretSafe
import GoCrypt.Spec.FlowSem
import GoCrypt.Spec.Accepts
import GoCrypt.Gen.Flow
import GoCrypt.Gen.SliceIR

namespace GoCrypt.Driver
open Bytes GoCrypt GoCrypt.Scheme

def showKeyRes : KeyRes → String
  | .ok k => "ok " ++ toHex k
  | .err e => s!"err {e.type} {e.num} {toHex e.str}"
  | .internal w => "internal " ++ w
  | .panic => "panic"

def parseKeyArgs : List String → Option KeyArgs
  | [pw, salt, rounds, memory, threads, optsNil, optPrefix, optVersion, optFlag, rand] => do
    let pw ← ofHex pw
    let salt ← ofHex salt
    let optPrefix ← ofHex optPrefix
    pure { password := pw, salt := salt, rounds := rounds.toNat!, memory := memory.toNat!, threads := threads.toNat!,
           optsNil := optsNil == "1", optPrefix := optPrefix, optVersion := optVersion.toNat!, optFlag := optFlag == "1",
           rand := rand.toNat! }
  | _ => none

def handleScheme : List String → Option String
  | "key" :: scheme :: args => do
    let S ← byName scheme
    let a ← parseKeyArgs args
    pure (showKeyRes (key S a))
  | "guards" :: scheme :: args => do
    let S ← byName scheme
    let a ← parseKeyArgs args
    match S.guards a with
    | .error e => pure s!"err {e.type} {e.num} {toHex e.str}"
    | .ok _ => pure "accept"
  | "accepts" :: scheme :: args => do
    -- the declarative bounds specification (Spec/Accepts.lean), independent of the regenerated guards
    let a ← parseKeyArgs args
    let spec ← match scheme with
      | "md5" => some Accepts.md5 | "sha256" => some Accepts.sha256 | "sha512" => some Accepts.sha512 | "sha1" => some Accepts.sha1
      | "sunmd5" => some Accepts.sunmd5 | "des" => some Accepts.des | "desext" => some Accepts.desext | "bcrypt" => some Accepts.bcrypt
      | "nthash" => some Accepts.nthash | "argon2" => some Accepts.argon2 | _ => none
    match spec.verdict a with
    | some e => pure s!"err {e.type} {e.num} {toHex e.str}"
    | none => pure "accept"
  | ["check", scheme, h, pw, rand] => do
    let S ← byName scheme
    let h ← ofHex h
    let pw ← ofHex pw
    pure (match check S h pw rand.toNat! with
      | .nil => "nil"
      | .mismatch => "mismatch"
      | .uerr e => showUErr e
      | .kerr e => s!"kerr {e.type} {e.num} {toHex e.str}"
      | .internal w => "internal " ++ w
      | .tagerr => "tagerr"
      | .panic => "panic")
  | ["desenc", v] => some (toHex (Codec.desEncodeInt v.toNat!))
  | ["desdec", t] => do
    let t ← ofHex t
    pure (toString (Codec.desDecodeInt t))
  | ["params", scheme, h] => do
    let S ← byName scheme
    let h ← ofHex h
    pure (match params S h with
      | .error e => showUErr e
      | .ok a => s!"ok {toHex a.salt} {a.rounds} {a.memory} {a.threads} {toHex a.optPrefix} {a.optVersion} {if a.optFlag then 1 else 0}")
  | ["newhash", scheme, pw, rounds, memory, entropy] => do
    let S ← byName scheme
    let pw ← ofHex pw
    let entropy ← ofHex entropy
    pure (match newHash S { password := pw, rounds := rounds.toNat!, memory := memory.toNat!, entropy := entropy } with
      | .ok h used => s!"ok {toHex h} {used}"
      | .kerr e => s!"kerr {e.type} {e.num} {toHex e.str}"
      | .internal w => "internal " ++ w
      | .panic => "panic")
  | ["secretsafe", pkg] => do
    let prog ← match pkg with
      | "argon2" => some Gen.argon2.flowCheck | "bcrypt" => some Gen.bcrypt.flowCheck | "des" => some Gen.des.flowCheck
      | "desext" => some Gen.desext.flowCheck | "md5" => some Gen.md5.flowCheck | "nthash" => some Gen.nthash.flowCheck
      | "sha1" => some Gen.sha1.flowCheck | "sha256" => some Gen.sha256.flowCheck | "sha512" => some Gen.sha512.flowCheck
      | "sunmd5" => some Gen.sunmd5.flowCheck | _ => none
    if GoCrypt.Flow.secretSafe' prog then pure "safe" else
      -- name the first statement that breaks the discipline (the offending call site)
      let rec find (t : GoCrypt.Flow.Taint) (k : Nat) : List GoCrypt.Flow.FStmt → String
        | [] => "the mismatch sentinel is not guarded by exactly one constant-time comparison"
        | st :: rest => match GoCrypt.Flow.stepSafe' t st with
          | some t' => find t' (k + 1) rest
          | none => s!"statement {k}: {(toString (repr st)).replace "\n" " "}"
      pure ("unsafe " ++ ((find [] 0 prog).replace "  " " "))
  | ["sliceeffects", pkg] => do
    let (prog, vars, globs) ← match pkg with
      | "argon2" => some (Gen.argon2.keySlices, Gen.argon2.keySliceVars, Gen.argon2.keySliceGlobals)
      | "bcrypt" => some (Gen.bcrypt.keySlices, Gen.bcrypt.keySliceVars, Gen.bcrypt.keySliceGlobals)
      | "des" => some (Gen.des.keySlices, Gen.des.keySliceVars, Gen.des.keySliceGlobals)
      | "desext" => some (Gen.desext.keySlices, Gen.desext.keySliceVars, Gen.desext.keySliceGlobals)
      | "md5" => some (Gen.md5.keySlices, Gen.md5.keySliceVars, Gen.md5.keySliceGlobals)
      | "nthash" => some (Gen.nthash.keySlices, Gen.nthash.keySliceVars, Gen.nthash.keySliceGlobals)
      | "sha1" => some (Gen.sha1.keySlices, Gen.sha1.keySliceVars, Gen.sha1.keySliceGlobals)
      | "sha256" => some (Gen.sha256.keySlices, Gen.sha256.keySliceVars, Gen.sha256.keySliceGlobals)
      | "sha512" => some (Gen.sha512.keySlices, Gen.sha512.keySliceVars, Gen.sha512.keySliceGlobals)
      | "sunmd5" => some (Gen.sunmd5.keySlices, Gen.sunmd5.keySliceVars, Gen.sunmd5.keySliceGlobals)
      | _ => none
    if SliceIR.argSafe prog && SliceIR.resultFresh prog then pure "pure" else
      let r := SliceIR.solve prog
      let vn (x : Nat) : String := vars.getD x s!"v{x}"
      let showRoot : SliceIR.Root → String
        | .param i => s!"argument {i}"
        | .fresh => "fresh"
        | .global g => "package variable " ++ globs.getD g s!"g{g}"
      let rootsOf (x : Nat) : String := ", ".intercalate ((r.of x).map showRoot)
      let bad := prog.filterMap fun st => match st with
        | .write x => if SliceIR.onlyFresh (r.of x) then none else some s!"store into {vn x} (may be: {rootsOf x})"
        | .appendTo _ y => if SliceIR.onlyFresh (r.of y) then none else some s!"append to {vn y} (may be: {rootsOf y})"
        | .ret x => if SliceIR.onlyFresh (r.of x) && !(r.of x).isEmpty then none else some s!"returns {vn x} (may be: {rootsOf x})"
        | .unknown d => some s!"untranslated statement {d}"
        | _ => none
      pure ("impure " ++ (if !SliceIR.stable prog then "fixpoint not reached in the fixed number of passes; " else "") ++ "; ".intercalate (bad.take 4))
  | "observed" :: _ => some "ok"     -- an implementation-only observation (the property's direct check); nothing to model
  | ["cache-facts", alias, ptrKeys] =>
    -- the protocol theorems of C08/C18 assume: getTypeInfo returns a private copy, entries are keyed by the dereferenced type
    some (if alias == "false" && ptrKeys == "false" then "protocol-ok" else "protocol-violated")
  | _ => none

end GoCrypt.Driver
