import GoCrypt.Model.Parse
import GoCrypt.Spec.RefParse

/-! Line-protocol rendering for the parser model and the reference parser. -/

namespace GoCrypt.Driver
open Bytes GoCrypt.Parse

def showVNode (v : VNode) : String := s!"v:{v.pos}:{v.fin}:{toHex v.val}"

def showFrag : Frag → String
  | .value v => showVNode v
  | .group vs => "g:[" ++ "|".intercalate (vs.map showVNode) ++ "]"

def showResult : Result → String
  | .ok t =>
    let p := match t.pfx with | some p => toHex p | none => "~"
    let f := if t.frags.isEmpty then "." else ";".intercalate (t.frags.map showFrag)
    s!"ok {p} {f}"
  | .err o m => s!"err {o} {m}"
  | .nilInGroup => "nil-in-group"

def showTok : Tok → String
  | .error p m => s!"e:{p}:{m}"
  | .pfx p v => s!"p:{p}:{toHex v}"
  | .dollar p => s!"d:{p}"
  | .comma p => s!"c:{p}"
  | .value p v => s!"v:{p}:{toHex v}"
  | .eof p => s!"z:{p}"

def handleParse : List String → Option String
  | ["parse", h] => (ofHex h).map fun s => showResult (parse s)
  | ["refparse", h] => (ofHex h).map fun s => showResult (RefParse.refParse s)
  | ["tokens", h] => (ofHex h).map fun s => " ".intercalate ((tokens s).map showTok)
  | _ => none

end GoCrypt.Driver
