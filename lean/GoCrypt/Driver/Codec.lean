import GoCrypt.Model.Codec
import GoCrypt.Gen.Shapes
import GoCrypt.Spec.Respell
import GoCrypt.Spec.CodecDomain
import GoCrypt.Proofs.CodecL2
import GoCrypt.Driver.State

/-! Line protocol for the codec model: shapes, marshal, unmarshal, type info. -/

namespace GoCrypt.Driver
open Bytes GoCrypt GoCrypt.Codec

def parseKind (s : String) : GoKind :=
  match s.toList with
  | ['s'] => .string
  | ['b'] => .bytes
  | 'a' :: r => .byteArray (String.ofList r).toNat!
  | 'i' :: r => .int (String.ofList r).toNat!
  | 'u' :: r => .uint (String.ofList r).toNat!
  | 'S' :: r => .structRef (String.ofList r)
  | _ => .other s

def parseCodec (s : String) : TextCodec :=
  match s.toList with
  | ['-'] => .none
  | ['d'] => .desInt
  | ['t'] => .twoDigit
  | 'w' :: r => .whitelist (((String.ofList r).splitOn "/").filterMap ofHex)
  | _ => .opaque s

/-- `name|e|a|ptr|kind|taghex|m|u` -/
def parseField (s : String) : Option GoField :=
  match s.splitOn "|" with
  | [name, e, a, ptr, kind, tag, m, u] => do
    let tag ← ofHex tag
    pure { name := name, exported := e == "1", anonymous := a == "1", ptrDepth := ptr.toNat!, kind := parseKind kind,
           typeName := "", tag := tag, marshalText := parseCodec m, unmarshalText := parseCodec u }
  | _ => none

/-- `Name{field;field}` -/
def parseStruct (s : String) : Option GoStruct :=
  match s.splitOn "{" with
  | [name, rest] =>
    let body := (rest.dropEnd 1).toString
    let fs := if body == "" then [] else body.splitOn ";"
    (fs.mapM parseField).map fun fields => { name := name, fields := fields }
  | _ => none

def showMsg : MsgClass → String
  | .lengthMismatch => "len"
  | .invalidChar c => s!"char:{c.toNat}"
  | .text w => "text:" ++ (w.replace " " "-")
  | .numSyntax => "numsyn"
  | .numRange => "numrange"
  | .prefixNotFound => "nopfx"
  | .unexpectedEOF => "eof"
  | .excessiveFragment => "excess"
  | .excessivePrefix => "xpfx"
  | .notFound k => "nf:" ++ (k.replace " " "-")
  | .unsupportedType => "utype"

def showTagErr : TagErr → String
  | .invalidTag f _ => s!"err tag invalid {f}"
  | .paramConflict a b => s!"err tag conflict {a} {b}"

def showMErr : MErr → String
  | .unsupportedTop => "err top"
  | .tag e => showTagErr e
  | .unsupportedType f => s!"err utype {f}"
  | .unsupportedValue f m => s!"err uval {f} {showMsg m}"

def showUErr : UErr → String
  | .syntax o m => s!"err syntax {o} {m}"
  | .tag e => showTagErr e
  | .ute v o f m => s!"err ute {v.replace " " "-"} {o} {if f == "" then "-" else f} {showMsg m}"

def showIdx (i : List Nat) : String := ".".intercalate (i.map toString)

def showFVal : FVal → String
  | .str s => "s:" ++ toHex s
  | .bytes b => "b:" ++ toHex b
  | .int v => s!"i:{v}"
  | .uint v => s!"u:{v}"
  | .nilPtr => "n"
  | .other => "o"

def showVals (vs : Vals) : String :=
  if vs.isEmpty then "." else " ".intercalate (vs.map fun (i, v) => showIdx i ++ "=" ++ showFVal v)

def parseFVal (s : String) : Option FVal :=
  match s.splitOn ":" with
  | ["s", h] => (ofHex h).map .str
  | ["b", h] => (ofHex h).map .bytes
  | ["i", v] => v.toInt?.map .int
  | ["u", v] => v.toNat?.map .uint
  | ["n"] => some .nilPtr
  | ["o"] => some .other
  | _ => none

def parseVal (s : String) : Option (List Nat × FVal) :=
  match s.splitOn "=" with
  | [i, v] => do
    let idx ← (i.splitOn ".").mapM String.toNat?
    let fv ← parseFVal v
    pure (idx, fv)
  | _ => none

def showOpts (fi : FieldInfo) : String :=
  let o := fi.opts
  let e := match o.enc with | .hash => "h" | .base64 => "b" | .none => "n"
  s!"{fi.name}@{showIdx fi.index}:{if o.isPrefix then 1 else 0}{if o.omitEmpty then 1 else 0}{if o.group then 1 else 0}{if o.inline then 1 else 0}:{toHex o.param}:{e}:{if o.hasLength then toString o.length else "-"}:{o.base}"

def showTypeInfo (ti : TypeInfo) : String :=
  let p := match ti.hashPrefix with | some f => showOpts f | none => "~"
  s!"ok {ti.numReqValues} {p} " ++ (if ti.fields.isEmpty then "." else " ".intercalate (ti.fields.map showOpts))

def schemeStructs : String → Option (List GoStruct)
  | "argon2" => some Gen.argon2.structs
  | "bcrypt" => some Gen.bcrypt.structs
  | "des" => some Gen.des.structs
  | "desext" => some Gen.desext.structs
  | "md5" => some Gen.md5.structs
  | "nthash" => some Gen.nthash.structs
  | "sha1" => some Gen.sha1.structs
  | "sha256" => some Gen.sha256.structs
  | "sha512" => some Gen.sha512.structs
  | "sunmd5" => some Gen.sunmd5.structs
  | _ => none

def eraseTypeName (s : GoStruct) : GoStruct := { s with fields := s.fields.map fun f => { f with typeName := "" } }

def handleCodec : Handler
  | st, "shape" :: id :: root :: defs => do
    let structs ← defs.mapM parseStruct
    let ti := typeInfoOf structs root
    let r := match ti with
      | .ok ti => showTypeInfo ti
      | .error e => showTagErr e
    pure ({ st with shapes := (id, ti) :: st.shapes }, r)
  | st, "scheme-shape" :: pkg :: defs => do
    let structs ← defs.mapM parseStruct
    let gen ← schemeStructs pkg
    let a := (gen.map eraseTypeName)
    pure (st, if a = structs then "same" else "differs")
  | st, "use-scheme" :: id :: pkg :: root :: [] => do
    let gen ← schemeStructs pkg
    pure ({ st with shapes := (id, typeInfoOf gen root) :: st.shapes }, "ok")
  | st, "marshal" :: id :: vals => do
    let ti ← st.shapes.lookup id
    let vals ← (vals.filter (· ≠ ".")).mapM parseVal
    match ti with
    | .error e => pure (st, showTagErr e)
    | .ok ti =>
      match marshal ti vals with
      | .ok s => pure (st, "ok " ++ toHex s)
      | .error e => pure (st, showMErr e)
  | st, ["unmarshal", id, h] => do
    let ti ← st.shapes.lookup id
    let h ← ofHex h
    match ti with
    | .error e => pure (st, showTagErr e)
    | .ok ti =>
      match unmarshal ti h with
      | .ok out => pure (st, "ok " ++ showVals (finalVals ti out))
      | .error e => pure (st, showUErr e)
  | st, "roundtrip" :: id :: vals => do
    let ti ← st.shapes.lookup id
    let vals ← (vals.filter (· ≠ ".")).mapM parseVal
    match ti with
    | .error e => pure (st, showTagErr e)
    | .ok ti =>
      -- the hypothesis of the general round-trip theorem C10General.roundtrip_L6 (minus the empty-last-text clause, which is
      -- reported as known finding F12 through the class annotation below)
      let dom := if GoCrypt.CodecDomain.unambiguous ti && GoCrypt.CodecDomain.representable ti vals &&
                    GoCrypt.Codec.Layers.groupsSeparated ti.fields && GoCrypt.Codec.Layers.noSteal vals ti.fields then "in" else "out"
      match marshal ti vals with
      | .error _ => pure (st, "rt-merr")
      | .ok s =>
        -- known finding 12: an empty text in the last emitted position is unrepresentable
        let body : Bytes := (marshalFields vals ti.fields none []).toOption.getD []
        let lastMember := (GoCrypt.RefParse.splitOn comma ((GoCrypt.RefParse.splitOn dollar body).getLast?.getD [])).getLast?.getD []
        let anyEmitted := (GoCrypt.Respell.pieces vals ti.fields).map (fun ps => !ps.isEmpty) |>.getD false
        let cls := if anyEmitted && lastMember.isEmpty then " class=empty-last-field" else ""
        let ann := s!" #dom={dom}{cls}"
        match unmarshal ti s with
        | .error _ => pure (st, "rt-reject" ++ ann)
        | .ok out =>
          let fin := finalVals ti out
          let same := fin.all fun (i, v) => (getVal vals i).getD v == v
          let same := same && vals.all fun (i, v) => match getVal fin i with | some w => v == w | none => true
          pure (st, (if same then "rt-ok" else "rt-diff") ++ ann)
  | st, "restable" :: id :: h :: [] => do
    let ti ← st.shapes.lookup id
    let h ← ofHex h
    match ti with
    | .error e => pure (st, showTagErr e)
    | .ok ti =>
      match unmarshal ti h with
      | .error _ => pure (st, "bad")
      | .ok out =>
        let v := finalVals ti out
        match marshal ti v with
        | .error e =>
          -- Unmarshal accepted `h`, but Marshal refuses the very value it returned (C20 / second half of C10). Name the
          -- option combination responsible, so that the known classes can be told from anything new.
          let fname := match e with | .unsupportedValue f _ => f | .unsupportedType f => f | _ => ""
          let cls := match (ti.hashPrefix.toList ++ ti.fields).find? (fun f => f.name == fname) with
            | some f =>
              (match f.kind with
               | .int _ | .uint _ => if f.opts.hasLength then "length-on-integer" else "other"
               | .byteArray n => if f.opts.length ≠ n then "array-length-mismatch" else if f.opts.omitEmpty then "omitempty+array" else "other"
               | _ => "other")
            | none => "other"
          pure (st, s!"remarshal-failed #class={cls}")
        | .ok c =>
          -- known finding 12: an empty text in the last emitted position cannot be read back
          let body : Bytes := (marshalFields v ti.fields none []).toOption.getD []
          let lastMember := (GoCrypt.RefParse.splitOn comma ((GoCrypt.RefParse.splitOn dollar body).getLast?.getD [])).getLast?.getD []
          let anyEmitted := (GoCrypt.Respell.pieces v ti.fields).map (fun ps => !ps.isEmpty) |>.getD false
          let dom := if GoCrypt.CodecDomain.unambiguous ti && GoCrypt.CodecDomain.representable ti v &&
                        GoCrypt.Codec.Layers.groupsSeparated ti.fields && GoCrypt.Codec.Layers.noSteal v ti.fields then "in" else "out"
          let cls := s!" #dom={dom}" ++ (if anyEmitted && lastMember.isEmpty then " class=empty-last-field" else "")
          match unmarshal ti c with
          | .error _ => pure (st, "reject" ++ cls)
          | .ok out2 => pure (st, (if finalVals ti out2 == v then "stable" else "diff") ++ cls)
  | st, "respell" :: id :: h :: vals => do
    let ti ← st.shapes.lookup id
    let h ← ofHex h
    let vals ← (vals.filter (· ≠ ".")).mapM parseVal
    match ti with
    | .error e => pure (st, showTagErr e)
    | .ok ti =>
      if GoCrypt.Respell.respell ti vals h then pure (st, "yes")
      else
        -- annotate the narrowest syntactic class of the shape (used to match recorded findings)
        -- known finding 13: `omitempty` on a non-empty byte array is honoured by Unmarshal but never by
        -- Marshal; re-evaluate with all-zero arrays of such fields read as omitted
        let isZeroArr (f : FieldInfo) (v : FVal) : Bool :=
          f.opts.omitEmpty && (match f.kind, v with | .byteArray (_ + 1), .bytes b => b.all (· == 0) | _, _ => false)
        let vals' : Vals := vals.map fun (i, v) =>
          match ti.fields.find? (·.index = i) with
          | some f => if isZeroArr f v then (i, FVal.nilPtr) else (i, v)
          | none => (i, v)
        let cls :=
          if ti.fields.any (fun f => f.opts.param ≠ [] && f.opts.inline) then " #class=param+inline"
          else if GoCrypt.Respell.respell ti vals' h then " #class=omitempty+array"
          else ""
        pure (st, "no" ++ cls)
  | _, _ => none

end GoCrypt.Driver
