import GoCrypt.Base.Bytes
import GoCrypt.Model.Parse
import GoCrypt.Spec.RefParse
import GoCrypt.Driver.Parse
