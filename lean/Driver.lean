import GoCrypt.Driver.State
import GoCrypt.Driver.Parse
import GoCrypt.Driver.Dispatch
import GoCrypt.Driver.Base64
import GoCrypt.Driver.Codec
import GoCrypt.Driver.Scheme
import GoCrypt.Driver.Argon2

/-! Line-protocol driver: one operation per line in, one result line out. Core-only (links as an exe). -/

open GoCrypt.Driver

def handlers : List Handler := [pureHandler handleParse, handleDispatch, pureHandler handleBase64, handleCodec, pureHandler handleScheme, pureHandler handleArgon2]

def step (st : DState) (line : String) : DState × String :=
  let ws := (line.trimAscii.toString.splitOn " ").filter (· ≠ "")
  match handlers.findSome? (fun h => h st ws) with
  | some r => r
  | none => (st, "bad-op")

partial def loop (h : IO.FS.Stream) (out : IO.FS.Stream) (st : DState) : IO Unit := do
  let line ← h.getLine
  if line.isEmpty then return ()
  let (st, r) := step st line
  out.putStrLn r
  loop h out st

def main : IO Unit := do
  let out ← IO.getStdout
  loop (← IO.getStdin) out {}
  out.flush
