import GoCrypt.Driver.Parse

/-! Line-protocol driver: one operation per line in, one result line out. Core-only (links as an exe). -/

open GoCrypt.Driver

def handlers : List (List String → Option String) := [handleParse]

def step (line : String) : String :=
  let ws := (line.trimAscii.toString.splitOn " ").filter (· ≠ "")
  match handlers.findSome? (fun h => h ws) with
  | some r => r
  | none => "bad-op"

partial def loop (h : IO.FS.Stream) (out : IO.FS.Stream) : IO Unit := do
  let line ← h.getLine
  if line.isEmpty then return ()
  out.putStrLn (step line)
  loop h out

def main : IO Unit := do
  let out ← IO.getStdout
  loop (← IO.getStdin) out
  out.flush
