#!/bin/bash
# Offline setup: build the Lean development, the Lean driver, the translator and the harness.
set -e
cd "$(dirname "$0")"
export GOFLAGS=-mod=mod GOPROXY=off GOSUMDB=off GOTOOLCHAIN=local
mkdir -p run/bin evidence
cp /repo/go.sum harness/go.sum
(cd gogen && go build -o ../run/bin/gogen .)
./run/bin/gogen -repo /repo -out lean/GoCrypt/Gen
(cd lean && lake build)
(cd harness && go build -tags verif -o ../run/bin/harness .)
echo setup ok
